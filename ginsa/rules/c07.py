"""C07 The operative config records exactly what Gin supplied."""
import ast

from ..cfg import witness
from ..core import AnalysisError, u, walk_local, enclosing_stmt, ancestors
from ..lib import (construct, std_facts, def_of, copy_kind, at_least, facts_at,
                   facts_imply, calls_of_node, in_subtree, returns_of, facts_for_expr)
from .wrapper import WrapperModel
from .common import allowed_stores, fresh_kwarg_defaults, signature_agreement


def run(ctx):
  prog = ctx.prog
  ctx.assume('T3')
  allowed_stores(ctx, 'C07.defaults', {'config._get_default_configurable_parameter_values': set(), 'config._get_kwarg_defaults': set(),
                                      'config._get_cached_arg_spec': {'_ARG_SPEC_CACHE'}},
                 'the recorded defaults depend on the function *and* on the configurable\'s allowlist / denylist; a result cached per function '
                 'is wrong for a second configurable backed by the same function')
  fresh_kwarg_defaults(ctx, 'C07.defaults')
  w = WrapperModel(ctx)
  f, g, facts = w.f, w.g, w.facts
  con = construct(f)
  # the merge into the record: ALIAS.update(OPV) with ALIAS = _OPERATIVE_CONFIG.setdefault(KEY, {})
  merges = []
  for n in g.live_nodes():
    s = n.ast
    if n.kind == 'stmt' and isinstance(s, ast.Expr) and isinstance(s.value, ast.Call) and isinstance(s.value.func, ast.Attribute) \
        and isinstance(s.value.func.value, (ast.Name, ast.Call)):
      rv = s.value.func.value
      d = (def_of(facts[n.id], rv.id) or '') if isinstance(rv, ast.Name) else u(rv)
      if d.startswith('_OPERATIVE_CONFIG.setdefault('):
        merges.append((n, s.value, d))
    elif n.kind == 'stmt' and isinstance(s, (ast.Assign, ast.Delete)):
      tg = s.targets[0]
      if isinstance(tg, ast.Subscript) and isinstance(tg.value, ast.Name):
        d = def_of(facts[n.id], tg.value.id) or ''
        if d.startswith('_OPERATIVE_CONFIG.setdefault('):
          merges.append((n, None, d))
  if not merges:
    ctx.fail('C07.record', con, 'the wrapper no longer merges the supplied parameters into the operative record entry', f.loc(), instance='merge')
    return
  good = [m for m in merges if m[1] is not None and m[1].func.attr == 'update' and len(m[1].args) == 1 and isinstance(m[1].args[0], ast.Name)]
  other = [m for m in merges if m not in good]
  ctx.check(bool(good) and not other, 'C07.record', con,
            'the record entry is only ever merged with .update(): a parameter supplied in at least one call stays listed, the most recent value wins',
            'the record entry is also written by `%s`: earlier calls\' parameters are lost (not "supplied in at least one call") or the merge is not most-recent-wins'
            % (other[0][0].text() if other else 'nothing'), w.loc((other or merges)[0][0]), instance='merge')
  if not good:
    return
  mn, mcall, adef = good[0]
  OPV = u(mcall.args[0])
  key = ast.parse(adef, mode='eval').body.args[0]
  from ..lib import expand_expr
  kd = [u(expand_expr(facts[mn.id], e)) for e in (key.elts if isinstance(key, ast.Tuple) else [])]
  def is_scope_string(text):
    t = (text or '').replace(' ', '')
    if t == "'/'.join(current_scope())":
      return True
    # ... or a call of a parameterless repository function that returns exactly that
    try:
      e = ast.parse(text or 'None', mode='eval').body
    except SyntaxError:
      return False
    if isinstance(e, ast.Call) and not e.args and not e.keywords:
      q = prog.resolve_call(f, e)
      g_ = ctx.ix.by_qual.get(q) if q else None
      if g_ is not None and hasattr(g_, 'params') and not g_.params:
        rs = [r for r in walk_local(g_.node) if isinstance(r, ast.Return)]
        return len(rs) == 1 and rs[0].value is not None and u(rs[0].value).replace(' ', '') == "'/'.join(current_scope())"
    return False
  ok = len(kd) == 2 and is_scope_string(kd[0]) and \
      kd[1] is not None and '_RENAMED_SELECTORS.get(selector, selector)' in kd[1]
  ctx.check(ok, 'C07.record', con, 'the entry key is (active scope string, current complete selector)',
            'the operative record key is built from %s' % kd, w.loc(mn), instance='key')
  # init = copy of the literal defaults
  inits = [n for n in g.live_nodes() if n.kind == 'stmt' and isinstance(n.ast, ast.Assign) and u(n.ast.targets[0]) == OPV]
  ok = False
  why = 'no initialisation'
  closure_defaults = None
  for st in walk_local(w.factory.node):
    if isinstance(st, ast.Assign) and isinstance(st.value, ast.Call) and \
        prog.resolve_call(w.factory, st.value) == 'config._get_default_configurable_parameter_values':
      closure_defaults = u(st.targets[0])
  if closure_defaults is None:
    ctx.fail('C07.record', construct(w.factory), 'the factory no longer computes the literal signature defaults', w.factory.loc(), instance='defaults')
  if len(inits) == 1 and closure_defaults:
    v = inits[0].ast.value
    kind = copy_kind(v)
    mentions = closure_defaults in {x.id for x in ast.walk(v) if isinstance(x, ast.Name)}
    ok = mentions and at_least(kind, 'SHALLOW')
    why = '`%s` (%s)' % (u(v), kind)
  ctx.check(ok, 'C07.record', con, 'each call starts its record from a copy of the literal signature defaults',
            'the per-call record is initialised from %s: without a copy one call\'s bindings are written into the shared defaults '
            'and leak into every later call\'s record (or defaults are not recorded at all)' % why,
            w.loc(inits[0]) if inits else f.loc(), instance='init-copy')
  # update with the applicable bindings, taken before they are evaluated
  ups = [n for n in g.live_nodes() if n.kind == 'stmt' and isinstance(n.ast, ast.Expr) and isinstance(n.ast.value, ast.Call)
         and u(n.ast.value.func) == OPV + '.update' and n.ast.value.args and u(n.ast.value.args[0]) == w.B]
  ok = bool(ups) and witness(g, g.entry.id, [mn.id], avoid=[n.id for n in ups]) is None
  ctx.check(ok, 'C07.record', con, 'the applicable bindings are merged into the record on every path',
            'the applicable bindings are not merged into the per-call record', f.loc(), instance='bindings')
  if ups and w.deepcopies:
    late = [n for n in ups for d, t, src in w.deepcopies if src == w.B and g.reaches(d.id, n.id)]
    ctx.check(not late, 'C07.record', con, 'the record takes the bound values before they are evaluated (a reference is recorded as a reference)',
              'the record is updated from the deep-copied (evaluated) bindings: it would list results of references instead of the references',
              w.loc(ups[0]), instance='before-evaluation')
  # caller-supplied names removed before the merge
  removed = w.removed_before(OPV, mn.id)
  pos = [pl for pl in removed if pl.names == w.posnames and pl.excluded in (None, w.req_pos_names)]
  kw = [pl for pl in removed if pl.names in (w.K, w.K + '.keys()', 'list(%s)' % w.K) and pl.excluded in (None, w.req_kw)]
  # removal must come after the bindings were merged in (else they are re-added)
  def after_updates(pls):
    return all(all(g.reaches(un.id, pl.loop.id) and not g.reaches(pl.loop.id, un.id) for un in ups) for pl in pls)
  # positional names are also popped from the bindings before the update, which is equivalent
  pos_b = [pl for pl in w.removed_before(w.B, ups[0].id) if pl.names == w.posnames] if ups else []
  kw_b = [pl for pl in w.removed_before(w.B, ups[0].id) if pl.names in (w.K, w.K + '.keys()', 'list(%s)' % w.K) and pl.excluded in (None, w.req_kw)] if ups else []
  ctx.check((pos and after_updates(pos)) or (pos_b and pos), 'C07.record', con,
            'parameters the caller supplied positionally (unless REQUIRED) are removed from the record before it is merged',
            'parameters the caller supplied positionally are recorded as if Gin had supplied them', w.loc(mn), instance='minus-positional')
  # removing a name from the bindings *and* from the copied defaults before they are merged is the same removal
  ctx.check(bool(kw) and (after_updates(kw) or bool(kw_b)), 'C07.record', con,
            'parameters the caller supplied by keyword (unless REQUIRED) are removed from the record before it is merged',
            'parameters the caller supplied by keyword are recorded as if Gin had supplied them (or are removed before the bindings are merged in)',
            w.loc(mn), instance='minus-keyword')

  from .common import record_before_call
  record_before_call(ctx, 'C07.record')
  # the names the record is printed under: shared with C06 / C08 / C19
  from .common import method_selector_rule
  method_selector_rule(ctx, 'C07.sections')
  from .c19 import import_aliases
  import_aliases(ctx, 'C07.sections')
  ctx.borrow('C06', 'C06.always-parses', 'C07.sections', instances={'imports-after-require'})     # the operative text imports what its selectors use
  # ---- C07.defaults
  df = ctx.func('config._get_default_configurable_parameter_values')
  g2, facts2 = std_facts(prog, df)

  def atom(e):
    t = u(e)
    if t in ('allowlist',):
      return 'allow'
    if t in ('denylist',):
      return 'deny'
    if isinstance(e, ast.Compare) and len(e.ops) == 1 and isinstance(e.ops[0], ast.In) and u(e.left) in keyvars:
      if u(e.comparators[0]) == 'allowlist':
        return 'in_allow'
      if u(e.comparators[0]) == 'denylist':
        return 'in_deny'
    if isinstance(e, ast.Call) and prog.resolve_call(df, e) == 'config._is_literally_representable':
      return 'repr'
    return None

  # the name(s) under which this function holds the parameter name of the entry being judged
  keyvars = {'k'}
  for n_ in walk_local(df.node):
    tg_ = n_.target if isinstance(n_, (ast.For, ast.comprehension)) else None
    if isinstance(tg_, ast.Tuple) and tg_.elts and isinstance(tg_.elts[0], ast.Name):
      keyvars.add(tg_.elts[0].id)
    elif isinstance(tg_, ast.Name):
      keyvars.add(tg_.id)
  spec = '(allow and not in_allow) or (deny and in_deny) or (not repr)'
  dels = [n for n in g2.live_nodes() if n.kind == 'stmt' and isinstance(n.ast, ast.Delete)]
  retvars = {r.value.id for r in returns_of(df) if isinstance(r.value, ast.Name)}
  keeps = [n for n in g2.live_nodes() if n.kind == 'stmt' and isinstance(n.ast, ast.Assign) and isinstance(n.ast.targets[0], ast.Subscript)
           and u(n.ast.targets[0].value) in retvars and u(n.ast.targets[0].slice) in keyvars]
  comps = [r.value for r in returns_of(df) if isinstance(r.value, ast.DictComp)] + \
          [a.value for a in walk_local(df.node) if isinstance(a, ast.Assign) and u(a.targets[0]) in retvars and isinstance(a.value, ast.DictComp)]
  ok = False
  detail = 'no filtering of non-configurable defaults found'

  def guard_tests(node):
    out = []
    for n in g2.live_nodes():
      if n.kind == 'test' and any(b == node.id for b, k in g2.succ[n.id] if k == 'T'):
        out.append(n)
    return out

  def converse(node, want):
    """The guarding test being false must imply `want`."""
    res = []
    for t in guard_tests(node):
      r = True
      for tx in (t.ast, g2.expanded.get(t.id), g2.expanded_bool.get(t.id)):
        if tx is not None and r:
          r = facts_imply({('c', u(tx), False)}, [('converse', want)], atom)
      if r:
        res = r
    return res
  if dels and not keeps and not comps:
    dn = dels[0]
    m1 = facts_imply(facts2[dn.id], [('deleted only if', spec)], atom)
    conv = converse(dn, 'not (%s)' % spec)
    ok = not m1 and not conv
    detail = 'counter-example over guard atoms: %s' % ((m1 or conv)[0][1] if (m1 or conv) else '')
  elif keeps and not dels and not comps:
    kn = keeps[0]
    inits = [a for a in walk_local(df.node) if isinstance(a, ast.Assign) and u(a.targets[0]) in retvars]
    empty = all(isinstance(a.value, ast.Dict) and not a.value.keys for a in inits) and bool(inits)
    m1 = facts_imply(facts2[kn.id], [('kept only if', 'not (%s)' % spec)], atom)
    conv = converse(kn, spec)
    ok = empty and not m1 and not conv
    detail = 'counter-example over guard atoms: %s' % ((m1 or conv)[0][1] if (m1 or conv) else ('result not built from an empty dict' if not empty else ''))
  elif comps and not dels and not keeps:
    c = comps[0]
    cond = ' and '.join('(%s)' % u(i) for i in c.generators[0].ifs) or 'True'
    m1 = facts_imply({('c', cond, True)}, [('kept only if', 'not (%s)' % spec)], atom)
    conv = facts_imply({('c', cond, False)}, [('dropped only if', spec)], atom)
    ok = not m1 and not conv and u(c.key) in keyvars
    detail = 'counter-example over guard atoms: %s' % ((m1 or conv)[0][1] if (m1 or conv) else '')
  ctx.check(ok, 'C07.defaults', construct(df),
            'a signature default is dropped iff it is outside a non-empty allowlist, inside the denylist, or not literally representable',
            'the defaults filter is not `not allowlisted or denylisted or not representable` (%s): non-configurable or unrepresentable '
            'defaults would appear in the operative config, or configurable ones would be missing' % detail, df.loc(), instance='filter')

  # ---- C07.sections / C07.present in _config_str
  cs = ctx.func('config._config_str')
  g3, facts3 = std_facts(prog, cs)
  P = cs.params[0]
  skips = [n for n in walk_local(cs.node) if isinstance(n, ast.If) and '_retrieve_constant' in u(n.test) and 'macro' in u(n.test)
           and isinstance(n.body[-1], ast.Continue)]
  if not skips:
    # by the facts: the '# Parameters for' header is emitted (or the entry is put aside for the section listing) only where the
    # configurable is known to be neither the macro nor the constant-lookup configurable
    import re as _re2
    def excluded(fs):
      return any(f_[0] == 'c' and f_[2] is False and _re2.fullmatch(r'_REGISTRY\[.+\]\.wrapped in \((macro, _retrieve_constant|_retrieve_constant, macro)\)', f_[1])
                 for f_ in fs) or any(f_[0] == 'c' and f_[2] is False and _re2.fullmatch(r'.+\.wrapped in \((macro, _retrieve_constant|_retrieve_constant, macro)\)', f_[1]) for f_ in fs)
    for n in g3.live_nodes():
      if n.ast is not None and n.kind == 'stmt' and ('Parameters for' in u(n.ast) or
                                                      (isinstance(n.ast, ast.Expr) and isinstance(n.ast.value, ast.Call) and isinstance(n.ast.value.func, ast.Attribute)
                                                       and n.ast.value.func.attr == 'append' and n.loops)):
        if excluded(facts3[n.id]):
          skips.append(n)
  ctx.check(bool(skips), 'C07.sections', construct(cs), 'sections for the macro and constant configurables are skipped in the per-configurable listing',
            'the per-configurable listing no longer skips macro / constant-lookup entries: constant lookups would get a section', cs.loc(), instance='skip')
  import re as _re
  is_macro_test = lambda e: bool(_re.fullmatch(r'(_REGISTRY\[.+\]\.wrapped==macro|macro==_REGISTRY\[.+\]\.wrapped)', u(e).replace(' ', '')))
  mac = [n for n in walk_local(cs.node) if isinstance(n, ast.If) and is_macro_test(n.test)]
  mac += [n for n in walk_local(cs.node) if isinstance(n, ast.comprehension) and any(is_macro_test(i) for i in n.ifs)]
  if not mac:
    # by the facts: an entry is stored / appended inside a loop exactly where the macro test is known to hold
    for n in g3.live_nodes():
      if n.ast is not None and n.kind == 'stmt' and n.loops and (
          (isinstance(n.ast, ast.Assign) and isinstance(n.ast.targets[0], ast.Subscript)) or
          (isinstance(n.ast, ast.Expr) and isinstance(n.ast.value, ast.Call) and isinstance(n.ast.value.func, ast.Attribute) and n.ast.value.func.attr == 'append')):
        for f_ in facts3[n.id]:
          if f_[0] == 'c' and f_[2] is True:
            try:
              if is_macro_test(ast.parse(f_[1], mode='eval').body):
                mac.append(n)
            except SyntaxError:
              pass
  ctx.check(bool(mac), 'C07.sections', construct(cs), 'macro entries are collected for the macro block', 'macro entries are no longer collected into the macro block',
            cs.loc(), instance='macros')
  # constant-key subscripts on record entries
  subs = []
  for n in walk_local(cs.node):
    if isinstance(n, ast.Subscript) and isinstance(n.ctx, ast.Load) and isinstance(n.slice, ast.Constant) and isinstance(n.slice.value, str) \
        and isinstance(n.value, ast.Name):
      subs.append(n)
  for sub in subs:
    fs = facts_for_expr(g3, facts3, sub)
    key = repr(sub.slice.value)
    guarded = any(f[0] == 'c' and f[2] is True and f[1].replace(' ', '') == '%sin%s' % (key, u(sub.value)) for f in fs)
    # short-circuit guard inside the same expression:  K in D and ... D[K] ...
    child = sub
    for anc in ancestors(sub):
      if isinstance(anc, ast.BoolOp) and isinstance(anc.op, ast.And):
        idx = next((i for i, v in enumerate(anc.values) if v is child), None)
        if idx is not None and any(u(v).replace(' ', '') == '%sin%s' % (key, u(sub.value)) for v in anc.values[:idx]):
          guarded = True
      if isinstance(anc, ast.IfExp) and child is anc.body and u(anc.test).replace(' ', '') == '%sin%s' % (key, u(sub.value)):
        guarded = True
      if isinstance(anc, ast.stmt):
        break
      child = anc
    ctx.check(guarded, 'C07.present', construct(cs),
              'subscript %s is guarded by a membership test' % u(sub),
              'the serialiser reads `%s` without checking that the key is present: the operative record entry of a macro is created '
              'empty before the call validates its arguments, so after a call using an unbound macro fails, operative_config_str() '
              'raises KeyError' % u(sub), cs.loc(sub), instance=u(sub))
  if not subs:
    ctx.hold('C07.present', construct(cs), 'no constant-key subscript on a record entry', cs.loc())
  from .c06 import roundtrip_guard
  roundtrip_guard(ctx, 'C07.defaults')
  from .c06 import reference_eq
  reference_eq(ctx, 'C07.defaults')
  signature_agreement(ctx, 'C07.defaults')
