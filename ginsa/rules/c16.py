"""C16 A failed parse applies exactly the preceding statements; errors say where."""
import ast

from ..cfg import describe_path, pair_leaks, release_without_acquire, witness
from ..core import AnalysisError, u, walk_local, enclosing_stmt, ancestors, FuncNode
from ..lib import (construct, std_facts, facts_at, def_of, calls_of_node,
                   in_subtree, single_reaching_value, expand_expr)
from ..resolve import store_accesses, enclosing_withs, in_with_body
from .common import LOCK_SETTER, ENTER, nodes_calling

CONFIG_STATE = ['_CONFIG', '_CONFIG_PROVENANCE', '_SINGLETONS', '_IMPORTS',
                '_OPERATIVE_CONFIG', '_CONSTANTS']
SEMANTIC_OPS = {
    'config.bind_parameter': 'bind',
    'config.ParseContext.get_configurable': 'resolve block target',
    'config.ParseContext.process_import': 'process import',
    'config.parse_config_file': 'include',
    'config._raise_unknown_configurable_error': 'report unknown block target',
}
TWL = 'utils.try_with_location'


def writers_of(prog, stores):
  """functions that (transitively) write one of the stores -> store names."""
  _, acc = store_accesses(prog, 'config', stores)
  direct = {}
  for a in acc:
    if a.kind in ('write', 'rebind') and a.func is not None:
      direct.setdefault(a.func.qual, set()).add(a.store)
  return direct, acc


def run(ctx):
  prog = ctx.prog
  ctx.assume('T1')
  # ---- C16.context
  ps = ctx.func('config._parse_scope')
  g = prog.cfg(ps)
  acq = [n for n in g.live_nodes() if any(u(c.func) == '_PARSE_CONTEXTS.append' for c in calls_of_node(n))]
  rel = [n for n in g.live_nodes() if any(u(c.func) == '_PARSE_CONTEXTS.pop' for c in calls_of_node(n))]
  ctx.expect_at_least('parse-context push sites', len(acq), 1)
  leaks = pair_leaks(g, [n.id for n in acq], [n.id for n in rel])
  if leaks:
    a, name, w = leaks[0]
    ctx.fail('C16.context', construct(ps), 'the parse context pushed for this parse is not popped on the %s: later parsing '
             'would resolve names through a stale per-file import table' % name, ps.loc(g.nodes[a].ast),
             sites=len(g.live_nodes()), instance=name, path=describe_path(g, w))
  else:
    ctx.hold('C16.context', construct(ps), 'the pushed parse context is popped on every exit (normal, exception at the yield)',
             ps.loc(), sites=len(g.live_nodes()))
  bad = release_without_acquire(g, [n.id for n in acq], [n.id for n in rel])
  ctx.check(not bad, 'C16.context', construct(ps), 'no pop without a push', 'a path pops the parse-context stack without having pushed',
            ps.loc(), instance='pop-without-push', path=describe_path(g, bad[0][1]) if bad else None)
  fresh = [c for n in acq for c in calls_of_node(n) if u(c.func) == '_PARSE_CONTEXTS.append']
  _g_ps, _f_ps = std_facts(prog, ps)
  def new_context(n, c):
    if len(c.args) != 1:
      return False
    a0 = c.args[0]
    if isinstance(a0, ast.Name):
      # a temporary holding the context constructed just before
      a0 = expand_expr(_f_ps[n.id], a0)
    return isinstance(a0, ast.Call) and prog.resolve_call(ps, a0) == 'config.ParseContext'
  ok = all(new_context(n, c) for n in [x for x in _g_ps.live_nodes()] for c in calls_of_node(n) if u(c.func) == '_PARSE_CONTEXTS.append')
  ctx.check(ok, 'C16.context', construct(ps), 'each parse pushes a newly constructed ParseContext',
            'the pushed context is not a new ParseContext', ps.loc(), instance='fresh')

  # ---- C16.stream / no-deferred / located in parse_config
  pc = ctx.func('config.parse_config')
  pcon = construct(pc)
  loops = [n for n in walk_local(pc.node) if isinstance(n, ast.For)]
  stmt_loop = None
  for lp in loops:
    it = lp.iter
    src = single_reaching_value(pc, it.id) if isinstance(it, ast.Name) else it
    if isinstance(src, ast.Call) and prog.resolve_call(pc, src) == 'config_parser.ConfigParser':
      stmt_loop = lp
      ok = isinstance(it, ast.Name)
      ctx.check(ok, 'C16.stream', pcon, 'the statement loop iterates the parser object itself (lazy: one statement parsed per iteration)',
                'the statement loop iterates `%s`' % u(it), pc.loc(lp), instance='lazy')
  if stmt_loop is None:
    # materialised first?
    mat = [n for n in walk_local(pc.node) if isinstance(n, ast.Call) and u(n.func) in ('list', 'tuple', 'sorted')
           and n.args and isinstance(n.args[0], ast.Name)
           and isinstance(single_reaching_value(pc, n.args[0].id), ast.Call)
           and prog.resolve_call(pc, single_reaching_value(pc, n.args[0].id)) == 'config_parser.ConfigParser']
    ctx.fail('C16.stream', pcon,
             'parse_config no longer iterates the ConfigParser lazily%s: a syntax error late in the text would prevent the '
             'preceding statements from taking effect (or they would all be parsed before any is applied)'
             % (' (it materialises it with `%s`)' % u(mat[0]) if mat else ''), pc.loc(mat[0]) if mat else pc.loc(), instance='lazy')
    return
  nx = ctx.func('config_parser.ConfigParser.__next__')
  ok = any(prog.resolve_call(nx, c) == 'config_parser.ConfigParser.parse_statement' for c in walk_local(nx.node) if isinstance(c, ast.Call))
  it_ = ctx.func('config_parser.ConfigParser.__iter__')
  ok2 = any(isinstance(r, ast.Return) and u(r.value) == 'self' for r in walk_local(it_.node))
  ctx.check(ok and ok2, 'C16.stream', 'gin/config_parser.py::ConfigParser.__next__', 'iteration parses one statement per step',
            'ConfigParser iteration no longer parses one statement per __next__', nx.loc())

  # every semantic operation sits in the loop body, inside try_with_location(<statement location>)
  sem = []
  for c in walk_local(pc.node):
    if isinstance(c, ast.Call):
      q = prog.resolve_call(pc, c)
      if q in SEMANTIC_OPS:
        sem.append((c, q))
  ctx.expect_at_least('semantic operations in the statement consumer', len(sem), 4)
  for c, q in sem:
    inst = '%s@%s' % (SEMANTIC_OPS[q], u(c)[:60])
    if not in_subtree(c, stmt_loop):
      ctx.fail('C16.stream', pcon, '%s `%s` happens outside the statement loop: its effect is not applied at the statement\'s position'
               % (SEMANTIC_OPS[q], u(c)[:80]), pc.loc(c), instance=inst)
      continue
    ws = [w for w in enclosing_withs(c) if in_subtree(w, stmt_loop) and in_with_body(c, w)]
    loc_ok = False
    for w in ws:
      for it in w.items:
        ce = it.context_expr
        if isinstance(ce, ast.Call) and prog.resolve_call(pc, ce) == TWL and len(ce.args) == 1:
          arg = u(ce.args[0])
          target = u(stmt_loop.target)
          if arg == target + '.location':
            loc_ok = True
          elif isinstance(ce.args[0], ast.Name):
            # unpacked from the statement tuple: last element of `... = statement`
            for a in walk_local(stmt_loop):
              if isinstance(a, ast.Assign) and u(a.value) == target and isinstance(a.targets[0], ast.Tuple) \
                  and isinstance(a.targets[0].elts[-1], ast.Name) and a.targets[0].elts[-1].id == arg:
                loc_ok = True
    ctx.check(loc_ok, 'C16.located', pcon,
              '%s runs inside try_with_location(<location of the statement being applied>)' % SEMANTIC_OPS[q],
              '%s `%s` is not wrapped in try_with_location with the statement\'s own location: a semantic error would not '
              'name the file and line of the offending statement' % (SEMANTIC_OPS[q], u(c)[:80]), pc.loc(c), instance=inst)

  # no-deferred: no configuration-state store written after the loop from accumulated state
  direct, acc = writers_of(prog, CONFIG_STATE)
  g = prog.cfg(pc)
  loop_nodes = [n for n in g.live_nodes() if n.kind == 'for' and n.ast is stmt_loop]
  after = set()
  for ln in loop_nodes:
    for b, k in g.succ[ln.id]:
      if k == 'exhaust':
        after |= g.reachable_from(b)
  deferred = []
  for i in sorted(after):
    n = g.nodes[i]
    if n.ast is None or in_subtree(n.ast, stmt_loop):
      continue
    for a in acc:
      if a.func is pc and a.kind in ('write', 'rebind') and in_subtree(a.node, n.ast) and n.kind == 'stmt':
        deferred.append((n, a.store, a.method))
    for c in calls_of_node(n):
      q = prog.resolve_call(pc, c)
      if q:
        hit = [w for w in prog.reachable([q]) if w in direct]
        if hit and q != 'config._parse_scope':
          deferred.append((n, sorted(direct[hit[0]])[0], 'via ' + q))
  if deferred:
    for n, store, how in deferred:
      ctx.fail('C16.no-deferred', pcon,
               '`%s` writes %s after the statement loop from state accumulated during it: when a later statement fails the '
               'write never happens, so the statements that preceded the failure have not fully taken effect (their %s are not recorded)'
               % (n.text(), store, 'imports' if store == '_IMPORTS' else 'effects'),
               pc.loc(n.ast), sites=len(after), instance='%s.%s' % (store, how))
  else:
    ctx.hold('C16.no-deferred', pcon, 'no configuration-state store is written after the statement loop', pc.loc(), sites=len(after))
  # ... and the imports are recorded at all (inside the loop)
  rec = [a for a in acc if a.store == '_IMPORTS' and a.kind == 'write' and a.method in ('add', 'update')
         and a.func is not None and a.func.qual in prog.reachable(['config.parse_config'])]
  in_loop = [a for a in rec if (a.func is pc and in_subtree(a.node, stmt_loop)) or a.func is not pc]
  ctx.check(bool(rec), 'C16.no-deferred', pcon, 'processed imports are recorded in the import set (%d site)' % len(rec),
            'processed import statements are no longer recorded', pc.loc(), instance='imports-recorded')
  # ... and only once the import has been processed successfully
  g_pc, f_pc = std_facts(prog, pc)
  for a in rec:
    if a.func is not pc:
      continue
    st = enclosing_stmt(a.node)
    fs = facts_at(g_pc, f_pc, st) or frozenset()
    done = ('call', 'config.ParseContext.process_import') in fs
    ctx.check(done, 'C16.no-deferred', pcon, 'an import is recorded only after it was processed successfully',
              'the import is recorded before (or without) process_import having succeeded: a failing or skipped import statement leaves a trace '
              'in the recorded imports, so the state after the failure is not "the prefix applied"', pc.loc(a.node), instance='record-after-success')

  # ---- located: parser side
  cp = 'config_parser.ConfigParser.'
  consuming = {cp + m for m in ('_advance_one_token', '_advance', '_expect', '_skip', '_skip_whitespace_and_comments',
                                '_parse_selector', '_parse_identifier', 'parse_value', 'advance_one_line')}
  for q in ('_maybe_parse_configurable_reference', '_maybe_parse_macro'):
    f = ctx.func(cp + q)
    g, facts = std_facts(prog, f)
    dels = [c for c in walk_local(f.node) if isinstance(c, ast.Call)
            and prog.resolve_call(f, c) in ('config.ParserDelegate.configurable_reference', 'config.ParserDelegate.macro')]
    ctx.expect_at_least('delegate calls in ' + q, len(dels), 1)
    for c in dels:
      ws = [w for w in enclosing_withs(c) if in_with_body(c, w)]
      locname = None
      for w in ws:
        for it in w.items:
          ce = it.context_expr
          if isinstance(ce, ast.Call) and prog.resolve_call(f, ce) == TWL and len(ce.args) == 1 and isinstance(ce.args[0], ast.Name):
            locname = ce.args[0].id
      ok = False
      if locname:
        # the location was captured before any token of the value was consumed
        defs = [n for n in g.live_nodes() if n.kind == 'stmt' and isinstance(n.ast, ast.Assign)
                and u(n.ast.targets[0]) == locname and isinstance(n.ast.value, ast.Call)
                and prog.resolve_call(f, n.ast.value) == cp + '_current_location']
        if len(defs) == 1:
          cons = [n for n in g.live_nodes() if any(prog.resolve_call(f, cc) in consuming for cc in calls_of_node(n))]
          ok = not any(witness(g, g.entry.id, [defs[0].id], avoid=()) and g.reaches(cn.id, defs[0].id) for cn in cons)
      ctx.check(ok, 'C16.located', construct(f),
                'the delegate call is wrapped in try_with_location(location captured before the value\'s first token is consumed)',
                'the delegate call is not wrapped with a location captured at the start of the value', f.loc(c), instance=u(c.func))
  st = ctx.func(cp + 'parse_statement')
  g, facts = std_facts(prog, st)
  defs = [n for n in g.live_nodes() if n.kind == 'stmt' and isinstance(n.ast, ast.Assign)
          and isinstance(n.ast.value, ast.Call) and prog.resolve_call(st, n.ast.value) == cp + '_current_location'
          and any(k.arg == 'ignore_char_num' for k in n.ast.value.keywords)]
  ok = False
  locvar = None
  if len(defs) == 1:
    locvar = u(defs[0].ast.targets[0])
    sel = [n for n in g.live_nodes() if any(prog.resolve_call(st, c) == cp + '_parse_selector' for c in calls_of_node(n))]
    ok = bool(sel) and all(not g.reaches(s.id, defs[0].id) for s in sel) and \
        all(witness(g, g.entry.id, [s.id], avoid=[defs[0].id]) is None for s in sel)
  ctx.check(ok, 'C16.located', construct(st), 'the statement location is captured before the statement\'s first token is consumed',
            'the statement location is not captured before the selector is parsed', st.loc(), instance='stmt-start')
  if locvar:
    uses = 0
    for c in walk_local(st.node):
      if isinstance(c, ast.Call) and u(c.func) in ('BindingStatement', 'IncludeStatement', 'self._parse_import', 'self._parse_binding_block'):
        uses += 1
        has = any(u(a) == locvar for a in c.args) or any(u(k.value) == locvar for k in c.keywords)
        ctx.check(has, 'C16.located', construct(st), '`%s` carries the statement-start location' % u(c.func),
                  '`%s` is not given the statement-start location' % u(c)[:80], st.loc(c), instance=u(c.func))
    ctx.expect_at_least('statement constructors in parse_statement', uses, 3)

  # ---- C16.type
  au = ctx.func('utils.augment_exception_message_and_reraise')
  ctx.check(au.qual in prog.noreturn, 'C16.type', construct(au), 'augment_exception_message_and_reraise has no normal exit',
            'augment_exception_message_and_reraise can return normally: the error would be swallowed', au.loc(), instance='no-return')
  proxy = au.nested.get('ExceptionProxy')
  if proxy is not None:
    ok = proxy.base_names() == ['type(exception)']
    ctx.check(ok, 'C16.type', construct(au), 'the re-raised object is an instance of a subclass of the original exception class',
              'the proxy class derives from %s, not from type(exception)' % proxy.base_names(), au.loc(proxy.node), instance='subclass')
  else:
    rs = [n for n in walk_local(au.node) if isinstance(n, ast.Raise)]
    ctx.note('no ExceptionProxy class; raise statements: %s' % [u(r) for r in rs])
  tw = ctx.func(TWL)
  g = prog.cfg(tw)
  hs = [n for n in g.live_nodes() if n.kind == 'handler']
  ctx.expect_at_least('handlers in try_with_location', len(hs), 1)
  for h in hs:
    esc = witness(g, h.id, [g.exit.id])
    ctx.check(esc is None, 'C16.type', construct(tw), 'the handler always re-raises (SyntaxError as is, others augmented)',
              'the handler can complete normally: a semantic error would be swallowed', tw.loc(h.ast), instance='handler-reraises',
              path=describe_path(g, esc) if esc else None)
  g_tw, f_tw = std_facts(prog, tw)
  bare = [n for n in g_tw.live_nodes() if n.kind == 'raise_stmt' and n.ast.exc is None]
  def only_syntax_error(n):
    if any(fct[0] == 'c' and fct[2] is True and fct[1].replace(' ', '').startswith('isinstance(') and 'SyntaxError' in fct[1] for fct in f_tw[n.id]):
      return True
    for anc in ancestors(n.ast):
      if isinstance(anc, ast.ExceptHandler):
        return anc.type is not None and u(anc.type) == 'SyntaxError'
    return False
  okb = all(only_syntax_error(n) for n in bare)
  ctx.check(okb, 'C16.type', construct(tw), 'only a SyntaxError is re-raised without the location being added',
            'an exception other than SyntaxError can be re-raised without adding this level\'s location: an error inside an included file '
            'would no longer name each level of the include chain', tw.loc(bare[0].ast) if bare else tw.loc(), instance='every-level')
  syn = [n for n in bare if only_syntax_error(n)]
  # a dedicated `except SyntaxError` clause must come before the broad one, or it never runs
  for t_ in [x for x in walk_local(tw.node) if isinstance(x, ast.Try)]:
    types = [u(h.type) if h.type is not None else 'BaseException' for h in t_.handlers]
    if 'SyntaxError' in types and any(b_ in types[:types.index('SyntaxError')] for b_ in ('Exception', 'BaseException')):
      syn = []
  ctx.check(bool(syn), 'C16.type', construct(tw), 'SyntaxError passes through un-wrapped', 'SyntaxError is no longer passed through unchanged',
            tw.loc(), instance='syntaxerror')

  # ---- C16.provenance
  bp = ctx.func('config.bind_parameter')
  g, facts = std_facts(prog, bp)
  vw, lw = [], []
  for n in g.live_nodes():
    a = n.ast
    if n.kind == 'stmt' and isinstance(a, ast.Assign) and isinstance(a.targets[0], ast.Subscript) \
        and isinstance(a.targets[0].value, ast.Name):
      d = def_of(facts[n.id], a.targets[0].value.id) or ''
      if '_CONFIG.setdefault(' in d:
        vw.append((n, d))
      elif '_CONFIG_PROVENANCE.setdefault(' in d:
        lw.append((n, d))
  if not vw:
    raise AnalysisError('bind_parameter: value write through the _CONFIG.setdefault alias not found')
  ok = bool(lw)
  w = None
  if ok:
    w = witness(g, vw[0][0].id, [g.exit.id], avoid=[n.id for n, _ in lw])
    ok = w is None
  # ... and no path returns normally without writing the value at all (no "already bound" fast path)
  w0 = witness(g, g.entry.id, [g.exit.id], avoid=[n.id for n, _ in vw])
  ctx.check(w0 is None, 'C16.provenance', construct(bp), 'every successful bind writes the value (no early return)',
            'bind_parameter can return without writing the value / its location (an early return): re-binding a parameter to a value that merely compares '
            'equal (1 vs True, references that differ only in scope) is dropped, so the most recent statement does not win and provenance is stale',
            bp.loc(), instance='always-writes', path=describe_path(g, w0) if w0 else None)
  same = ok and all(u(a.ast.targets[0].slice) == u(vw[0][0].ast.targets[0].slice) for a, _ in lw) and \
      all(d.split('(', 1)[1] == vw[0][1].split('(', 1)[1] for _, d in lw) and \
      all(u(a.ast.value) == 'location' for a, _ in lw)
  ctx.check(ok and same, 'C16.provenance', construct(bp),
            'every bind writes the value and its location under the same key on every path (also when the location is None)',
            'a bind can write the value without writing its location (or under a different key): config_str(show_provenance=True) '
            'would attribute the binding to a stale statement', bp.loc(vw[0][0].ast), path=describe_path(g, w) if w else None)
  _, acc2 = store_accesses(prog, 'config', ['_CONFIG', '_CONFIG_PROVENANCE'])
  for f in {a.func for a in acc2 if a.method == 'clear' and a.func is not None}:
    cl = {a.store for a in acc2 if a.func is f and a.method == 'clear'}
    ctx.check(cl == {'_CONFIG', '_CONFIG_PROVENANCE'}, 'C16.provenance', construct(f), 'bindings and provenance are cleared together',
              '%s clears %s only' % (f.name, sorted(cl)), f.loc(), instance='clear-together')

  from .common import allowed_stores
  allowed_stores(ctx, 'C16.propagate', {'config.parse_config_file': {'_LOCATION_PREFIXES', '_FILE_READERS'}, 'config.parse_config': {'_IMPORTS'},
                                        'config._parse_scope': {'_PARSE_CONTEXTS'}},
                 'state remembered by the parse entry points across calls (files "in progress", includes seen) must be undone on every exit, or a later parse behaves differently from a fresh process')
  # ---- C16.propagate: a failure inside a file or statement is not swallowed and the search / loop does not go on
  for q in ('config.parse_config', 'config.parse_config_file', 'config.parse_config_files_and_bindings', 'config.bind_parameter'):
    fn = ctx.func(q)
    hs = [h for h in walk_local(fn.node) if isinstance(h, ast.ExceptHandler)]
    for h in hs:
      t = u(h.type) if h.type is not None else 'everything'
      allowed = q == 'config.parse_config' and t == 'ImportError' and \
          any(isinstance(s_, ast.If) and u(s_.test) == 'not skip_unknown' and isinstance(s_.body[-1], ast.Raise) for s_ in h.body)
      ctx.check(allowed, 'C16.propagate', construct(fn), 'the only handler on the parse path is the skip_unknown ImportError one (re-raising when the option is off)',
                '`except %s` in %s can swallow a failure raised while a file / statement is being applied (e.g. the IOError of a bad include inside the '
                'file): parsing carries on with the next candidate or statement, so statements after the failing one take effect' % (t, fn.name),
                fn.loc(h), instance='handler:' + t)
    if not hs:
      ctx.hold('C16.propagate', construct(fn), 'no exception handler: failures propagate', fn.loc(), instance='no-handler')

  # ---- C16.untouched
  roots = ['config.parse_config', 'config.parse_config_file']
  reach = prog.reachable(roots)
  for target, what in ((LOCK_SETTER, 'the lock setter'), ('config.clear_config', 'clear_config'), ('config.finalize', 'finalize')):
    p = None
    if target in reach:
      p = prog.path_to('config.parse_config', target) or prog.path_to('config.parse_config_file', target)
    ctx.check(target not in reach, 'C16.untouched', 'gin/config.py::parse_config', 'parsing never reaches %s' % what,
              'parsing can reach %s: %s' % (what, ' -> '.join(p or [])), 'gin/config.py', sites=len(reach), instance=what)
  pushers = [f for f in ctx.ix.all_funcs() if ENTER in prog.callees(f.qual)]
  ctx.check(all(f.qual == 'config.config_scope' for f in pushers), 'C16.untouched', 'gin/config.py::parse_config',
            'scopes are only entered through the config_scope context manager (restored on every exit, C09)',
            'scope pushed outside config_scope by %s' % [f.qual for f in pushers], 'gin/config.py', instance='scope')
  ctx.borrow('C03', 'C03.queue', 'C16.stream')     # block members reach the consumer in source order
