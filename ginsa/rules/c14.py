"""C14 Includes act as in-place inclusion; files resolve through ordered locations."""
import ast

from ..cfg import witness
from ..core import AnalysisError, u, walk_local, enclosing_stmt
from ..lib import (construct, std_facts, def_of, facts_at, calls_of_node,
                   returns_of, in_subtree, default_of, kwarg, format_sites, expand_expr)
from ..resolve import store_accesses
from ..cfg import describe_path
from .common import allowed_stores


def passes(call, pos, name, value='skip_unknown'):
  if len(call.args) > pos and u(call.args[pos]) == value:
    return True
  k = kwarg(call, name)
  return k is not None and u(k) == value


def run(ctx):
  prog = ctx.prog
  ctx.assume('T10')
  allowed_stores(ctx, 'C14.inplace', {'config.parse_config': {'_IMPORTS'}, 'config.parse_config_file': {'_LOCATION_PREFIXES', '_FILE_READERS'},
                                     'config.parse_config_files_and_bindings': set()},
                 'an include must act exactly like the included text at that point; state remembered across includes (e.g. "already included") changes that')
  pf = ctx.func('config.parse_config_file')
  con = construct(pf)
  g, facts = std_facts(prog, pf)
  # ---- C14.nest
  loops = [n for n in walk_local(pf.node) if isinstance(n, ast.For)]
  outer = [l for l in loops if not any(in_subtree(l, o) and o is not l for o in loops)]
  inner = [l for l in loops if l not in outer]
  ok = len(outer) == 1 and len(inner) == 1 and u(inner[0].iter) == '_FILE_READERS'
  pref = def_of(facts[[n for n in g.live_nodes() if n.kind == 'for' and n.ast is outer[0]][0].id], u(outer[0].iter)) if outer and isinstance(outer[0].iter, ast.Name) else None
  ctx.check(ok and pref is not None and '_LOCATION_PREFIXES' in pref, 'C14.nest', con,
            'locations are the outer loop and readers the inner loop: each location is tried with every reader before the next location',
            'the search loops are nested as %s over %s' % ([u(l.iter) for l in outer], [u(l.iter) for l in inner]), pf.loc(), instance='order')
  if ok:
    rets = [n for n in g.live_nodes() if n.kind == 'return' and in_subtree(n.ast, inner[0])]
    okr = bool(rets) and all(any(fct[0] == 'c' and fct[2] is True and fct[1].startswith('existence_check(') for fct in facts[n.id]) for n in rets)
    ctx.check(okr, 'C14.nest', con, 'the first location/reader whose existence check succeeds is parsed and returned',
              'the first hit no longer returns from inside the search loops', pf.loc(), instance='first-hit')
    joined = [n for n in walk_local(outer[0]) if isinstance(n, ast.Assign) and u(n.value).replace(' ', '') == 'os.path.join(%s,%s)' % (u(outer[0].target), pf.params[0])]
    ctx.check(bool(joined), 'C14.nest', con, 'the candidate is <location>/<name>', 'the candidate path is no longer os.path.join(location, name)', pf.loc(), instance='join')
  # ---- C14.absolute
  ok = pref is not None and pref.replace(' ', '') in ("_LOCATION_PREFIXESifnotos.path.isabs(%s)else['']" % pf.params[0],
                                                      "['']ifos.path.isabs(%s)else_LOCATION_PREFIXES" % pf.params[0])
  ctx.check(ok, 'C14.absolute', con, 'an absolute name bypasses the search locations', 'prefix selection is `%s`' % pref, pf.loc(), instance='absolute')
  # ---- C14.ioerror
  falls = [g.nodes[a] for a, k in g.pred[g.exit.id] if g.nodes[a].kind != 'return']
  rs = [n for n in g.live_nodes() if n.kind == 'raise_stmt' and not n.loops]
  okio = not falls and len(rs) == 1 and isinstance(rs[0].ast.exc, ast.Call) and u(rs[0].ast.exc.func) in ('IOError', 'OSError', 'FileNotFoundError')
  msg = okio and any(any(u(a) == u(outer[0].iter) for a in ops) for _c, _t, ops in format_sites(rs[0].ast))
  ctx.check(okio and msg, 'C14.ioerror', con, 'a name nobody can read raises IOError naming the locations searched (and nothing is applied)',
            'the fall-through of the search no longer raises an IOError that names the locations searched', pf.loc(), instance='ioerror')
  ctx.borrow('C16', 'C16.propagate', 'C14.ioerror')     # ... and that IOError reaches the caller: no handler on the parse path swallows it
  # nested call forwards the option
  calls = [c for c in walk_local(pf.node) if isinstance(c, ast.Call) and prog.resolve_call(pf, c) == 'config.parse_config']
  ctx.check(bool(calls) and all(passes(c, 1, 'skip_unknown') for c in calls), 'C14.entry', con, 'parse_config_file forwards skip_unknown to parse_config',
            'parse_config_file no longer forwards skip_unknown', pf.loc(), instance='forward:file->parse')
  resnode = [c for c in walk_local(pf.node) if isinstance(c, ast.Call) and u(c.func) == 'ParsedConfigFileIncludesAndImports']
  okres = bool(resnode) and {k.arg: u(k.value) for k in resnode[0].keywords} == {'filename': pf.params[0], 'imports': 'imports', 'includes': 'includes'}
  ctx.check(okres, 'C14.inplace', con, 'the returned record carries the file name, its imports and its nested includes',
            'the returned include/import record changed', pf.loc(), instance='result')

  # ---- C14.inplace
  pc = ctx.func('config.parse_config')
  loop = [n for n in walk_local(pc.node) if isinstance(n, ast.For) and u(n.iter) == 'parser']
  inc = [c for c in walk_local(pc.node) if isinstance(c, ast.Call) and prog.resolve_call(pc, c) == pf.qual]
  ok = bool(loop) and bool(inc) and all(in_subtree(c, loop[0]) for c in inc)
  ctx.check(ok, 'C14.inplace', construct(pc), 'an include is parsed inside the statement loop, before the next statement of the including file is read',
            'includes are no longer parsed at their position in the statement loop', pc.loc(), instance='in-loop')
  # the include is unconditional: every pass through the include branch parses the file (or raises)
  gI, factsI = std_facts(prog, pc)
  inc_nodes = [n for n in gI.live_nodes() if any(prog.resolve_call(pc, c) == pf.qual for c in calls_of_node(n))]
  branch = [n for n in gI.live_nodes() if n.kind == 'test' and 'IncludeStatement' in u(n.ast)]
  loop_nodes = [n for n in gI.live_nodes() if n.kind == 'for' and loop and n.ast is loop[0]]
  skip_path = None
  if branch and inc_nodes and loop_nodes:
    start = [b for b, k in gI.succ[branch[0].id] if k == 'T'][0]
    if start not in [n.id for n in inc_nodes]:
      from ..cfg import witness as _w
      skip_path = _w(gI, start, [loop_nodes[0].id], avoid=[n.id for n in inc_nodes])
  ctx.check(bool(branch) and bool(inc_nodes) and skip_path is None, 'C14.inplace', construct(pc),
            'every include statement is parsed (no path through the include branch skips the file)',
            'an include statement can be skipped without parsing the file: the second inclusion of a file (diamond include, re-including '
            'defaults after an override) would not be re-applied in place', pc.loc(), instance='unconditional',
            path=describe_path(gI, skip_path) if skip_path else None)
  ctx.check(bool(inc) and all(passes(c, 1, 'skip_unknown') and u(c.args[0]) == 'statement.filename' for c in inc), 'C14.entry', construct(pc),
            'the include forwards skip_unknown', 'the include no longer forwards skip_unknown', pc.loc(), instance='forward:include')
  g2, facts2 = std_facts(prog, pc)
  rets = [r for r in returns_of(pc) if r.value is not None]
  # the first component of the returned pair, and what is appended to it
  tree = u(rets[0].value.elts[0]) if rets and isinstance(rets[0].value, ast.Tuple) and rets[0].value.elts else 'includes'
  app = [(n, c) for n in g2.live_nodes() for c in calls_of_node(n) if u(c.func) == tree + '.append' and c.args]
  ok = bool(app) and all(any(isinstance(x, ast.Call) and prog.resolve_call(pc, x) == pf.qual for x in ast.walk(expand_expr(facts2[n.id], c.args[0])))
                         for n, c in app) and any(tree in u(r.value) and 'imports' in u(r.value) for r in rets)
  ctx.check(ok, 'C14.inplace', construct(pc), 'each include\'s result is appended to the returned tree in order', 'include results are no longer collected into the returned tree', pc.loc(), instance='tree')

  # ---- C14.entry
  fb = ctx.func('config.parse_config_files_and_bindings')
  g3, facts3 = std_facts(prog, fb)
  P0 = fb.params[0]
  forms = {P0, '[] if %s is None else %s' % (P0, P0), '%s or []' % P0, '%s or ()' % P0, '%s if %s is not None else []' % (P0, P0),
           '() if %s is None else %s' % (P0, P0), '%s if %s else []' % (P0, P0)}
  fl = [n for n in g3.live_nodes() if n.kind == 'for' and u(n.ast.iter) in forms]
  fcalls = [n for n in g3.live_nodes() if any(prog.resolve_call(fb, c) == pf.qual for c in calls_of_node(n))]
  if not fl:
    # one call per file inside a comprehension over the files: the statement holding it plays the role of the loop
    for n in fcalls:
      for comp in [x for x in ast.walk(n.ast) if isinstance(x, (ast.ListComp, ast.GeneratorExp))] if n.ast is not None else []:
        if len(comp.generators) == 1 and u(comp.generators[0].iter) in forms and not comp.generators[0].ifs \
            and any(isinstance(c, ast.Call) and prog.resolve_call(fb, c) == pf.qual for c in ast.walk(comp.elt)):
          fl.append(n)
  bcalls = [n for n in g3.live_nodes() if any(prog.resolve_call(fb, c) == pc.qual for c in calls_of_node(n))]
  fins = [n for n in g3.live_nodes() if any(prog.resolve_call(fb, c) == 'config.finalize' for c in calls_of_node(n))]
  ok = bool(fl) and bool(fcalls) and bool(bcalls) and bool(fins)
  order = ok and all(in_subtree(n.ast, fl[0].ast) for n in fcalls) and all(not g3.reaches(b.id, x.id) for b in bcalls for x in fcalls) and \
      all(witness(g3, g3.entry.id, [b.id], avoid=[fl[0].id]) is None for b in bcalls) and \
      all(not g3.reaches(x.id, b.id) for b in bcalls for x in fins) and all(witness(g3, g3.entry.id, [x.id], avoid=[b.id for b in bcalls]) is None for x in fins)
  ctx.check(order, 'C14.entry', construct(fb), 'files in the given order, then the extra bindings, then finalize',
            'the multi-file entry point no longer runs files -> bindings -> finalize in that order', fb.loc(), instance='order')
  # ... on every path: nothing returns before the finalize decision has been taken
  ftests = [n for n in g3.live_nodes() if n.kind == 'test' and u(n.ast).replace(' ', '') in ('finalize_config', 'notfinalize_config')]
  early = witness(g3, g3.entry.id, [g3.exit.id], avoid=[n.id for n in ftests] + [x.id for x in fins] + [n.id for n in g3.live_nodes() if n.kind == 'raise_stmt']) if (ftests or fins) else None
  ctx.check(early is None and bool(ftests or fins), 'C14.entry', construct(fb), 'every normal return of the multi-file entry point has passed the finalize decision',
            'the multi-file entry point can return without reaching `if finalize_config: finalize()` (an early return): the configuration is then left '
            'unlocked and no finalize hook has run although finalize_config is true', fb.loc(), instance='finalize-always',
            path=describe_path(g3, early) if early else None)
  okf = ok and all(('c', 'finalize_config', True) in facts3[x.id] for x in fins)
  ctx.check(okf, 'C14.entry', construct(fb), 'finalize runs iff finalize_config', 'finalize is not conditioned on finalize_config', fb.loc(), instance='finalize-flag')
  fw = ok and all(passes(c, 1, 'skip_unknown') for n in fcalls + bcalls for c in calls_of_node(n) if prog.resolve_call(fb, c) in (pf.qual, pc.qual))
  ctx.check(fw, 'C14.entry', construct(fb), 'skip_unknown is forwarded to every file and to the bindings', 'the multi-file entry point drops skip_unknown', fb.loc(), instance='forward:multi')
  for f_, name, want in ((pc, 'skip_unknown', False), (pf, 'skip_unknown', False), (fb, 'skip_unknown', False), (fb, 'finalize_config', True)):
    d = default_of(f_.node, name)
    ctx.check(isinstance(d, ast.Constant) and d.value is want, 'C14.entry', construct(f_), 'default %s=%s' % (name, want),
              'default of %s is `%s`' % (name, u(d) if d is not None else None), f_.loc(), instance='default:%s' % name)

  # ---- C14.ordered-stores
  stores, acc = store_accesses(prog, 'config', ['_LOCATION_PREFIXES', '_FILE_READERS'])
  for a in acc:
    if a.kind == 'write' or a.kind == 'rebind':
      ctx.check(a.method == 'append', 'C14.ordered-stores', construct(a.func) if a.func else 'gin/config.py', '%s only grows at the end (registration order = search order)' % a.store,
                '%s is modified with %s: registration order is no longer search order' % (a.store, a.method), a.func.loc(a.node) if a.func else 'gin/config.py', instance='%s.%s' % (a.store, a.method))
  ok = u(stores['_LOCATION_PREFIXES'][1]) == "['']" and u(stores['_FILE_READERS'][1]).replace(' ', '') == '[(open,os.path.isfile)]'
  ctx.check(ok, 'C14.ordered-stores', 'gin/config.py', "the current directory ('') and the plain file reader come first", 'initial search locations / readers changed', 'gin/config.py', instance='initial')

  # ---- C14.total-predicate
  pp = ctx.func('resource_reader._parse_config_path')
  g4, facts4 = std_facts(prog, pp)
  ex = ctx.func('resource_reader.system_path_file_exists')
  caught = set()
  for n in walk_local(ex.node):
    if isinstance(n, ast.ExceptHandler) and n.type is not None:
      caught |= {u(e) for e in (n.type.elts if isinstance(n.type, ast.Tuple) else [n.type])}
  sinks = 0
  for n in g4.live_nodes():
    for c in calls_of_node(n):
      if u(c.func) in ('os.path.dirname', 'os.path.join', 'os.path.split', 'os.path.basename') and c.args:
        for a in c.args:
          if isinstance(a, ast.Name):
            d = def_of(facts4[n.id], a.id) or ''
            if d.endswith('.origin'):
              sinks += 1
              base = d[:-len('.origin')]
              guarded = any(fct[0] == 'c' and fct[2] is False and fct[1].replace(' ', '') in ('%sisNone' % a.id, '%sisNone' % d) for fct in facts4[n.id]) or \
                  any(fct[0] == 'c' and fct[2] is True and fct[1].replace(' ', '') in (a.id, d) for fct in facts4[n.id])
              broad = bool(caught & {'Exception', 'TypeError', 'BaseException'})
              ctx.check(guarded or broad, 'C14.total-predicate', construct(pp),
                        '`%s` (= %s, None for namespace packages) is checked before it reaches %s' % (a.id, d, u(c.func)),
                        '`%s` (= %s) reaches %s without an `is None` check: for a relative name whose directory is a plain directory on sys.path '
                        '(a namespace package, origin None) the existence predicate raises TypeError, which system_path_file_exists does not catch '
                        '(%s), so parse_config_file raises TypeError instead of the promised IOError' % (a.id, d, u(c.func), sorted(caught)),
                        pp.loc(c), instance='origin-none')
  if sinks == 0:
    ctx.hold('C14.total-predicate', construct(pp), 'spec.origin does not flow unguarded into a path function', pp.loc())
  ok = any(isinstance(n, ast.If) and u(n.test) == 'spec is None' and isinstance(n.body[-1], ast.Raise) for n in walk_local(pp.node))
  ctx.check(ok and 'ValueError' in caught, 'C14.total-predicate', construct(pp), 'an unknown package is reported as "not found" (ValueError, caught by the predicate)',
            'an unknown package is no longer turned into "file does not exist"', pp.loc(), instance='spec-none')
  imp = bool(caught & {'ImportError', 'Exception'})
  ctx.check(imp, 'C14.total-predicate', construct(ex), 'importlib failures (ImportError, e.g. for a name derived from an absolute path) mean "does not exist here"',
            'the existence predicate catches only %s: importlib.util.find_spec raises a plain ImportError for package names derived from absolute paths '
            '(leading dot), which now aborts the whole search instead of trying the next location / raising the IOError naming the locations' % sorted(caught),
            ex.loc(), instance='catches-importerror')
  rr = ctx.ix.module('resource_reader')
  regs = [n for n in ast.walk(rr.tree) if isinstance(n, ast.Call) and u(n.func) == 'config.register_file_reader']
  ctx.check(bool(regs) and [u(a) for a in regs[0].args] == ['system_path_reader', 'system_path_file_exists'], 'C14.ordered-stores', 'gin/resource_reader.py',
            'the package reader is registered (after the plain reader)', 'the package reader registration changed', 'gin/resource_reader.py', instance='package-reader')
