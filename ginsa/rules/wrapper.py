"""Model of `_make_gin_wrapper.gin_wrapper` shared by C01, C04, C07, C10.

Roles are discovered from the code (which variable holds the bindings, which
is handed to the wrapped call, ...), not assumed by name.
"""
import ast

from ..core import AnalysisError, u, walk_local, enclosing_stmt
from ..lib import std_facts, calls_of_node, stored_names, in_subtree, def_of

FACTORY = 'config._make_gin_wrapper'
WRAPPER = 'config._make_gin_wrapper.gin_wrapper'
REQ = 'REQUIRED'


class PopLoop:
  """`for n in NAMES: if n not in EXC: D.pop(n, None)` (or `del`/comprehension)."""

  def __init__(self, node, target, names, excluded, loop):
    self.node = node          # CFG node of the pop statement
    self.target = target      # dict variable popped from
    self.names = names        # text of the iterated expression
    self.excluded = excluded  # text of the exclusion container or None
    self.loop = loop          # CFG node of the `for`


class WrapperModel:

  def __init__(self, ctx):
    prog = ctx.prog
    self.ctx = ctx
    self.factory = ctx.func(FACTORY)
    self.f = f = ctx.func(WRAPPER)
    a = f.node.args
    if a.vararg is None or a.kwarg is None:
      raise AnalysisError('gin_wrapper no longer takes *args, **kwargs')
    self.A = a.vararg.arg
    self.K = a.kwarg.arg
    self.g, self.facts = std_facts(prog, f)
    g = self.g
    # the wrapped call
    fn_param = self.factory.params[0]
    calls = []
    for n in g.live_nodes():
      for c in calls_of_node(n):
        if isinstance(c.func, ast.Name) and c.func.id == fn_param:
          calls.append((n, c))
    self.calls = calls
    if not calls:
      raise AnalysisError('gin_wrapper no longer calls the wrapped function `%s`' % fn_param)
    self.call_node, self.call = calls[0]
    self.star = [x.value for x in self.call.args if isinstance(x, ast.Starred)]
    self.dstar = [k.value for k in self.call.keywords if k.arg is None]
    # the bindings variable
    self.B = None
    self.get_node = None
    for n in g.live_nodes():
      s = n.ast
      if n.kind == 'stmt' and isinstance(s, ast.Assign) and isinstance(s.value, ast.Call) \
          and prog.resolve_call(f, s.value) == 'config._get_bindings' and isinstance(s.targets[0], ast.Name):
        self.B = s.targets[0].id
        self.get_node = n
    # deepcopy nodes: X = copy.deepcopy(Y)
    self.deepcopies = []
    for n in g.live_nodes():
      s = n.ast
      if n.kind == 'stmt' and isinstance(s, ast.Assign) and isinstance(s.value, ast.Call) \
          and u(s.value.func) in ('copy.deepcopy', 'deepcopy') and isinstance(s.targets[0], ast.Name):
        self.deepcopies.append((n, s.targets[0].id, u(s.value.args[0]) if s.value.args else None))
    # positional names variable
    self.posnames = None
    for n in g.live_nodes():
      s = n.ast
      if n.kind == 'stmt' and isinstance(s, ast.Assign) and isinstance(s.value, ast.Call) \
          and prog.resolve_call(f, s.value) == 'config._get_supplied_positional_parameter_names':
        self.posnames = u(s.targets[0])
    # REQUIRED collections
    self.req_pos_names = self._collector(self.A, indexes=False)
    self.req_pos_idx = self._collector(self.A, indexes=True)
    self.req_kw = self._collector(self.K, indexes=False)
    self.pop_loops = self._pop_loops()

  # -------------------------------------------------------------------------
  def _collector(self, source, indexes):
    """Name of the list that collects names (or indexes) of entries of
    `source` (the *args / **kwargs parameter) whose value `is REQUIRED`."""
    f = self.f
    for lp in walk_local(f.node):
      if not isinstance(lp, ast.For):
        continue
      if source not in {n.id for n in ast.walk(lp.iter) if isinstance(n, ast.Name)}:
        continue
      for iff in walk_local(lp):
        if isinstance(iff, ast.If) and isinstance(iff.test, ast.Compare) and len(iff.test.ops) == 1 \
            and isinstance(iff.test.ops[0], ast.Is) and u(iff.test.comparators[0]) == REQ:
          for st in iff.body:
            if isinstance(st, ast.Expr) and isinstance(st.value, ast.Call) and isinstance(st.value.func, ast.Attribute) \
                and st.value.func.attr == 'append' and st.value.args:
              arg = st.value.args[0]
              is_index = isinstance(arg, ast.Name) and isinstance(lp.target, ast.Tuple) and \
                  isinstance(lp.target.elts[0], ast.Name) and arg.id == lp.target.elts[0].id and 'enumerate' in u(lp.iter)
              if is_index == indexes:
                return u(st.value.func.value)
    return None

  def _pop_loops(self):
    out = []
    g = self.g
    for n in g.live_nodes():
      s = n.ast
      if n.kind != 'stmt' or not isinstance(s, ast.Expr) or not isinstance(s.value, ast.Call):
        continue
      c = s.value
      if not (isinstance(c.func, ast.Attribute) and c.func.attr == 'pop' and isinstance(c.func.value, ast.Name)):
        continue
      if len(c.args) != 2 or not isinstance(c.args[0], ast.Name):
        continue
      var = c.args[0].id
      loops = [l for l in n.loops if isinstance(l, ast.For) and isinstance(l.target, ast.Name) and l.target.id == var]
      if not loops:
        continue
      lp = loops[-1]
      exc = None
      conds = [f for f in self.facts[n.id] if f[0] == 'c' and var in f[1]]
      okc = True
      for fct in conds:
        t = ast.parse(fct[1], mode='eval').body
        if isinstance(t, ast.Compare) and len(t.ops) == 1 and isinstance(t.ops[0], ast.In) and u(t.left) == var and fct[2] is False:
          exc = u(t.comparators[0])
        else:
          okc = False   # some other condition restricts the pop
      if not okc:
        continue
      lpn = [x for x in g.live_nodes() if x.kind == 'for' and x.ast is lp]
      out.append(PopLoop(n, c.func.value.id, u(lp.iter), exc, lpn[0] if lpn else None))
    return out

  def removed_before(self, target, node_id):
    """Texts of NAMES collections whose non-excluded members are popped from
    `target` on every path before CFG node `node_id`."""
    from ..cfg import witness
    res = []
    for pl in self.pop_loops:
      if pl.target != target or pl.loop is None:
        continue
      # the loop header must be passed on every path to node_id
      if witness(self.g, self.g.entry.id, [node_id], avoid=[pl.loop.id]) is None and \
          not self.g.reaches(node_id, pl.loop.id):
        res.append(pl)
    return res

  def writes_to(self, var):
    """CFG nodes that rebind or mutate `var`."""
    return [n for n in self.g.live_nodes() if var in stored_names(n)]

  def loc(self, node=None):
    return self.f.loc(node.ast if hasattr(node, 'ast') else node)
