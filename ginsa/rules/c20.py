"""C20 clear_config returns the configuration to its pristine state."""
import ast

from ..cfg import describe_path, witness
from ..core import AnalysisError, u, walk_local, enclosing_stmt
from ..lib import construct, calls_of_node, raise_guards, names_of_text, in_subtree, std_facts
from ..resolve import store_accesses, module_stores, enclosing_withs, in_with_body
from .common import LOCK_SETTER, nodes_calling

# DESIGN.md appendix B (confirmed by reading).
CONFIG_STATE = {
    '_CONFIG': 'bindings',
    '_CONFIG_PROVENANCE': 'binding locations',
    '_SINGLETONS': 'cached singletons',
    '_IMPORTS': 'recorded imports',
    '_OPERATIVE_CONFIG': 'operative record',
    '_CONFIG_IS_LOCKED': 'lock flag',
    '_CONSTANTS': 'constants',
}
INFRA = {
    '_REGISTRY': 'registrations survive a clear',
    '_INVERSE_REGISTRY': 'registrations survive a clear',
    '_RENAMED_SELECTORS': 'selector renames belong to registrations',
    '_FINALIZE_HOOKS': 'hook registrations',
    '_FILE_READERS': 'reader registrations',
    '_LOCATION_PREFIXES': 'search path registrations',
    '_ARG_SPEC_CACHE': 'pure cache keyed by function object',
    '_INTERACTIVE_MODE': 'process mode with its own context manager',
    '_PARSE_CONTEXTS': 'balanced stack (C16.context)',
    '_SCOPE_MANAGER': 'per-thread, balanced (C09)',
    '_OPERATIVE_CONFIG_LOCK': 'lock',
    'REQUIRED': 'immutable sentinel',
}
STATE_READS = set(CONFIG_STATE) | {'_INTERACTIVE_MODE'}


def run(ctx):
  prog = ctx.prog
  cc = ctx.func('config.clear_config')
  con = construct(cc)
  m = ctx.ix.module('config')
  stores = module_stores(prog, 'config')
  ctx.expect_at_least('module-level stores of config.py', len(stores), 12)
  _, acc = store_accesses(prog, 'config')
  g = prog.cfg(cc)

  def reset_nodes(store):
    out = []
    for a in acc:
      if a.store == store and a.func is cc and a.method == 'clear':
        st = enclosing_stmt(a.node)
        out.extend(g.nodes_for(st))
    return out

  # ---- C20.classified
  for name in sorted(stores):
    st, val = stores[name]
    if name in CONFIG_STATE or name in INFRA:
      ctx.hold('C20.classified', 'gin/config.py::' + name,
               'configuration state (%s)' % CONFIG_STATE[name] if name in CONFIG_STATE else 'registration/infrastructure state (%s)' % INFRA[name],
               'gin/config.py:%d' % st.lineno, instance='classified')
      continue
    if isinstance(val, ast.Call) and u(val.func) in ('threading.Lock', 'threading.RLock', 'object', 're.compile'):
      ctx.hold('C20.classified', 'gin/config.py::' + name, 'lock / immutable helper object', 'gin/config.py:%d' % st.lineno, instance='classified')
      continue
    writers = sorted({a.func.qual for a in acc if a.store == name and a.kind in ('write', 'rebind') and a.func is not None})
    readers = sorted({a.func.qual for a in acc if a.store == name and a.kind in ('read', 'escape') and a.func is not None})
    rs = reset_nodes(name)
    always = bool(rs) and witness(g, g.entry.id, [g.exit.id], avoid=[n.id for n in rs]) is None
    if not writers or always:
      ctx.hold('C20.classified', 'gin/config.py::' + name,
               'new store: %s' % ('never written after import' if not writers else 'reset by clear_config on every path'),
               'gin/config.py:%d' % st.lineno, instance='classified')
    else:
      ctx.fail('C20.classified', 'gin/config.py::' + name,
               'module-level store %s is written by %s and read by %s but is not reset by clear_config: state survives a clear, '
               'so the configuration is distinguishable from a fresh process' % (name, writers, readers),
               'gin/config.py:%d' % st.lineno, instance='unclassified')

  # what survives a clear is left alone by it: clear_config (and what it calls) neither writes the registration stores nor
  # touches the scope / parse-context stacks, which belong to the `with` blocks that are open around the call
  reach_cc = set(prog.reachable([cc.qual])) | {cc.qual}
  HANDS_OFF = {k for k in INFRA if k not in ('_OPERATIVE_CONFIG_LOCK', 'REQUIRED', '_ARG_SPEC_CACHE')}
  touched = [a for a in acc if a.store in HANDS_OFF and a.func is not None and (a.func.qual in reach_cc or any(a.func.qual.startswith(q + '.') for q in reach_cc))]
  bad_t = []
  for a in touched:
    stack_like = a.store in ('_SCOPE_MANAGER', '_PARSE_CONTEXTS')
    if a.kind in ('write', 'rebind') or (stack_like and a.func is cc):
      bad_t.append(a)
  ctx.check(not bad_t, 'C20.classified', con, 'clear_config leaves the registration stores and the scope / parse-context stacks alone (%d reads on its call paths)' % len(touched),
            'clear_config %s %s (`%s`): %s' % (
                ('touches', bad_t[0].store, bad_t[0].method or bad_t[0].kind,
                 'the stack belongs to the `with` blocks open around the call: their exit then pops an entry that is not theirs, and the thread is left without a root scope '
                 '(IndexError on every later call)' if bad_t[0].store in ('_SCOPE_MANAGER', '_PARSE_CONTEXTS') else
                 'registered configurables / hooks / readers must remain after a clear') if bad_t else ('', '', '', '')),
            bad_t[0].func.loc(bad_t[0].node) if bad_t else cc.loc(), sites=len(touched), instance='hands-off')
  # the parse-context stack is classified as infrastructure *because* it is balanced: empty again after every parse
  ctx.borrow('C16', 'C16.context', 'C20.classified')
  # ---- C20.complete
  for name, what in CONFIG_STATE.items():
    if name not in stores and name not in m.assigns:
      raise AnalysisError('store %s vanished from config.py' % name)
    if name == '_CONFIG_IS_LOCKED':
      ns = [n for n in nodes_calling(prog, cc, g, LOCK_SETTER)
            if any(prog.resolve_call(cc, c) == LOCK_SETTER and c.args and isinstance(c.args[0], ast.Constant)
                   and c.args[0].value is False for c in calls_of_node(n))]
    else:
      ns = reset_nodes(name)
    w = witness(g, g.entry.id, [g.exit.id], avoid=[n.id for n in ns]) if ns else [g.entry.id, g.exit.id]
    if name == '_CONSTANTS':
      continue
    ctx.check(w is None, 'C20.complete', con, '%s (%s) reset on every path' % (name, what),
              '%s (%s) is not reset on every path through clear_config: %s survive a clear' % (name, what, what),
              cc.loc(), sites=len(g.live_nodes()), instance=name, path=describe_path(g, w) if w else None)
  # constants: abstract evaluation of what the table holds at the end, for each value of the flag
  p0 = cc.params[0] if cc.params else 'clear_constants'
  for mode, inst, want, good, bad in (
      (True, '_CONSTANTS:clear', frozenset({'REQ'}), 'clear_constants=True: the table ends up holding only gin.REQUIRED',
       'clear_constants=True: constants are not cleared and gin.REQUIRED re-added afterwards'),
      (False, '_CONSTANTS:keep', 'OLD', 'clear_constants=False: the table ends up holding every constant it held before',
       'clear_constants=False: constants are cleared but not all restored')):
    try:
      final = constants_after(cc, p0, mode)
    except Uninterpreted as e:
      raise AnalysisError('clear_config handles the constant table in a form this rule cannot interpret: %s' % e)
    okc = final == want or (want == 'OLD' and final == frozenset({'ALLOLD'}))
    ctx.check(okc, 'C20.complete', con, good, bad + ' (the table ends up as %s)' % (sorted(final) if isinstance(final, frozenset) else final),
              cc.loc(), instance=inst)
  # SelectorMap.clear resets both fields; copy copies both
  sm = ctx.cls('selector_map.SelectorMap')
  init = sm.methods.get('__init__')
  fields = sorted({n.attr for n in walk_local(init.node) if isinstance(n, ast.Attribute) and isinstance(n.ctx, ast.Store)
                   and isinstance(n.value, ast.Name) and n.value.id == 'self'})
  ctx.expect_at_least('SelectorMap fields', len(fields), 2)
  clr = sm.methods.get('clear')
  cleared = {u(c.func.value).split('.', 1)[1] for c in walk_local(clr.node) if isinstance(c, ast.Call)
             and isinstance(c.func, ast.Attribute) and c.func.attr == 'clear' and u(c.func.value).startswith('self.')}
  cleared |= {n.attr for n in walk_local(clr.node) if isinstance(n, ast.Attribute) and isinstance(n.ctx, ast.Store)}
  ctx.check(set(fields) <= cleared, 'C20.complete', 'gin/selector_map.py::SelectorMap.clear', 'clear resets every field %s' % fields,
            'SelectorMap.clear leaves %s untouched: removed names still match by suffix (or values survive)' % sorted(set(fields) - cleared),
            clr.loc(), instance='map-clear')

  # ---- C20.total
  reach = sorted(prog.reachable([cc.qual]))
  n_guards = 0
  for q in reach:
    f = ctx.ix.get(q)
    if not hasattr(f, 'node') or isinstance(f.node, ast.ClassDef):
      continue
    for ifn, atoms in raise_guards(prog, f):
      n_guards += 1
      txt = u(ifn.test)
      names = names_of_text(txt)
      reads = sorted(names & STATE_READS)
      self_state = [a for a in ast.walk(ifn.test) if isinstance(a, ast.Attribute) and isinstance(a.value, ast.Name)
                    and a.value.id == 'self' and a.attr.startswith('_selector')]
      # a raise on the argument's *form* (regex over the name) cannot fire for names that were stored before
      if not reads and not self_state:
        continue
      path = prog.path_to(cc.qual, q)
      ctx.fail('C20.total', con,
               'clear_config reaches `%s`, whose rejection `if %s: raise` reads configuration state (%s): for some histories '
               '(e.g. constants defined in interactive mode where one name is a dotted suffix of another) clear_config raises '
               'half-way and leaves the later stores uncleared' % (f.name, txt, ', '.join(reads or [u(a) for a in self_state])),
               f.loc(ifn), sites=1, instance='%s:%s' % (f.name, txt), path=path)
  ctx.hold('C20.total', con, '%d raise-guards examined in %d functions reachable from clear_config; those listed as failing '
           'obligations (if any) read configuration state' % (n_guards, len(reach)), cc.loc(), sites=n_guards, instance='swept')
  from .common import lock_order
  lock_order(ctx, 'C20.total')
  # constants survive *as the same objects*: the saved copy holds the values by identity
  sm_copy = sm.methods.get('copy')
  vm = [a for a in walk_local(sm_copy.node) if isinstance(a, ast.Assign) and isinstance(a.targets[0], ast.Attribute) and a.targets[0].attr == '_selector_map']
  from ..lib import copy_kind
  ok = bool(vm) and all(copy_kind(a.value) == 'SHALLOW' for a in vm)
  ctx.check(ok, 'C20.complete', 'gin/selector_map.py::SelectorMap.copy', 'the saved constants keep the stored objects themselves (value map copied shallowly)',
            'SelectorMap.copy does not keep the stored objects themselves (`%s`): constants re-inserted by clear_config() are copies, and a value that cannot be '
            'deep-copied makes clear_config() raise half-way' % [u(a.value) for a in vm], sm_copy.loc(), instance='constants-identity')
  from .common import record_before_call
  record_before_call(ctx, 'C20.complete')


class Uninterpreted(Exception):
  pass


def constants_after(cc, flag, mode):
  """Abstract state of _CONSTANTS after clear_config(flag=mode):
  'OLD' (untouched) or a frozenset over {'REQ', 'ALLOLD', 'VIA-constant()'}."""
  T = '_CONSTANTS'
  state = {'table': 'OLD'}
  env = {}

  def mentions(n, names):
    return any(isinstance(x, ast.Name) and x.id in names for x in ast.walk(n))

  def snapshot(e):
    """('map'|'pairs', content) if e is a snapshot expression."""
    t = u(e).replace(' ', '')
    if t in (T + '.copy()', 'dict(%s)' % T, 'dict(%s.items())' % T, 'dict(%s.copy())' % T):
      return ('map', 'SNAP')
    if t in ('list(%s.items())' % T, 'tuple(%s.items())' % T, 'list(%s.copy().items())' % T, 'sorted(%s.items())' % T,
             T + '.copy().items()', 'dict(%s).items()' % T, 'tuple(%s.copy().items())' % T):
      return ('pairs', 'SNAP')
    if t in ("[('gin.REQUIRED',REQUIRED)]", "(('gin.REQUIRED',REQUIRED),)"):
      return ('pairs', 'REQLIT')
    if t == "{'gin.REQUIRED':REQUIRED}":
      return ('map', 'REQLIT')
    return None

  def truth(test):
    t = u(test)
    if t == flag:
      return mode
    if t == 'not ' + flag:
      return not mode
    raise Uninterpreted('condition `%s` around the constant table' % t)

  def add(item):
    if state['table'] == 'OLD':
      if item == 'REQ':
        return         # already there
      raise Uninterpreted('re-insertion into an uncleared table')
    state['table'] = frozenset(state['table'] | {item})

  def run(stmts):
    for st in stmts:
      literal = isinstance(st, ast.Assign) and len(st.targets) == 1 and isinstance(st.targets[0], ast.Name) and snapshot(st.value) is not None
      if not mentions(st, {T} | set(env)) and not literal:
        if isinstance(st, (ast.If, ast.For, ast.While, ast.With, ast.Try)):
          for fld in ('body', 'orelse', 'finalbody'):
            sub = getattr(st, fld, None) or []
            if any(mentions(x, {T} | set(env)) for x in sub):
              raise Uninterpreted('line %d' % st.lineno)
        continue
      if isinstance(st, ast.If):
        run(st.body if truth(st.test) else st.orelse)
      elif isinstance(st, ast.With) and not any(mentions(it.context_expr, {T} | set(env)) for it in st.items):
        run(st.body)
      elif isinstance(st, ast.Try) and not st.handlers:
        run(st.body)
        run(st.finalbody)
      elif isinstance(st, ast.Assign) and len(st.targets) == 1 and isinstance(st.targets[0], ast.Name):
        sn = snapshot(st.value)
        if sn is None and isinstance(st.value, (ast.ListComp, ast.DictComp)) and len(st.value.generators) == 1 \
            and u(st.value.generators[0].iter).replace(' ', '') in (T + '.items()', T + '.copy().items()') and st.value.generators[0].ifs:
          # a filtered snapshot: some subset of the entries
          env[st.targets[0].id] = ('pairs' if isinstance(st.value, ast.ListComp) else 'map',
                                   'entries with `%s`' % u(st.value.generators[0].ifs[0]) if state['table'] == 'OLD' else 'LATE')
          continue
        if sn is None:
          raise Uninterpreted('`%s`' % u(st))
        kind, content = sn
        if content == 'SNAP':
          if state['table'] != 'OLD':
            content = 'LATE'       # snapshot taken after the clear: empty
          else:
            content = 'ALLOLD'
        else:
          content = 'REQ'
        env[st.targets[0].id] = (kind, content)
      elif isinstance(st, ast.Expr) and isinstance(st.value, ast.Call) and u(st.value.func) == T + '.clear' and not st.value.args:
        state['table'] = frozenset()
      elif isinstance(st, ast.Assign) and len(st.targets) == 1 and u(st.targets[0]).replace(' ', '') == T + "['gin.REQUIRED']" and u(st.value) == 'REQUIRED':
        add('REQ')
      elif isinstance(st, ast.Expr) and isinstance(st.value, ast.Call) and u(st.value.func) == T + '.update' and len(st.value.args) == 1 \
          and isinstance(st.value.args[0], ast.Name) and st.value.args[0].id in env:
        c = env[st.value.args[0].id][1]
        if c != 'LATE':
          add(c)
      elif isinstance(st, ast.For) and not st.orelse and isinstance(st.target, ast.Tuple) and len(st.target.elts) == 2:
        it = st.iter
        src = None
        if isinstance(it, ast.Call) and isinstance(it.func, ast.Attribute) and it.func.attr == 'items' and isinstance(it.func.value, ast.Name) \
            and it.func.value.id in env and env[it.func.value.id][0] == 'map':
          src = env[it.func.value.id]
        elif isinstance(it, ast.Name) and it.id in env and env[it.id][0] == 'pairs':
          src = env[it.id]
        elif snapshot(it) is not None and snapshot(it)[0] == 'pairs':
          src = ('pairs', 'ALLOLD' if state['table'] == 'OLD' else 'LATE')
        if src is None or len(st.body) != 1:
          raise Uninterpreted('loop at line %d' % st.lineno)
        k, v = u(st.target.elts[0]), u(st.target.elts[1])
        b = st.body[0]
        if isinstance(b, ast.Assign) and u(b.targets[0]).replace(' ', '') == '%s[%s]' % (T, k) and u(b.value) == v:
          if src[1] != 'LATE':
            add(src[1])
        elif isinstance(b, ast.Expr) and isinstance(b.value, ast.Call) and u(b.value.func) == 'constant' and [u(a) for a in b.value.args] == [k, v]:
          if src[1] != 'LATE':
            add('VIA-constant()')
        elif any(isinstance(c_, ast.Call) and u(c_.func) == 'constant' and [u(a) for a in c_.args] == [k, v] for c_ in ast.walk(b)):
          if src[1] != 'LATE':
            add('VIA-constant()')
        else:
          raise Uninterpreted('loop body at line %d' % b.lineno)
      else:
        raise Uninterpreted('`%s` (line %d)' % (u(st)[:60], st.lineno))
  run(cc.node.body)
  return state['table']
