from ._h import S
P = 'config_parser.py'
SEEDS = [
  S('raw-text-check-dropped', 'C03.selector-guard', P, "    if untokenized_scoped_selector != scoped_selector or not valid_format:", "    if not valid_format:", 'inner whitespace silently repaired'),
  S('last-component-regex-dropped', 'C03.selector-guard', P, "    valid_format &= bool(selector_re.match(scope_parts[-1]))\n", ""),
  S('scope-components-unchecked', 'C03.selector-guard', P, "    valid_format = all(scope_re.match(scope) for scope in scope_parts[:-1])", "    valid_format = True"),
  S('flag-disjunction', 'C03.selector-guard', P, "    valid_format &= bool(scoped or len(scope_parts) == 1)", "    valid_format |= bool(scoped or len(scope_parts) == 1)"),
  S('queue-lifo', 'C03.queue', P, "      return self._statements_queue.popleft()", "      return self._statements_queue.pop()"),
  S('queue-drained-late', 'C03.queue', P, "    if self._statements_queue:\n      return self._statements_queue.popleft()\n\n    self._skip_whitespace_and_comments()", "    self._skip_whitespace_and_comments()\n    if self._statements_queue:\n      return self._statements_queue.popleft()\n"),
  S('members-prepended', 'C03.queue', P, "        bindings.append(binding)", "        bindings.insert(0, binding)"),
  S('first-dot-split', 'C03.split', P, "  selector_arg_name_list = selector.rsplit('.', 1)", "  selector_arg_name_list = selector.split('.', 1)"),
  S('first-slash-split', 'C03.split', P, "  scope_selector_list = scoped_selector.rsplit('/', 1)", "  scope_selector_list = scoped_selector.split('/', 1)"),
  S('binding-fields-swapped', 'C03.kinds', P, "      statement = BindingStatement(scope, selector, arg_name, value, stmt_loc)", "      statement = BindingStatement(selector, scope, arg_name, value, stmt_loc)"),
  S('unknown-kind-ignored', 'C03.kinds', 'config.py', "      else:\n        raise AssertionError(\n            'Unrecognized statement type {}.'.format(statement))\n", "      else:\n        pass\n"),
  S('eos-guard-removed', 'C03.eos', P, "    if self._current_token.type not in end_types:\n      self._raise_syntax_error('Expected newline.')\n", ""),
]
